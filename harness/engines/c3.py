"""C35: runtime inheritance follows C3 linearization.

Oracle = spec/oracle/C3.tla (Merge/Mro transcribed from the published definition; TLC enumerates every
inheritance DAG up to the size bound and checks the C3 theorems on the oracle itself).  Every dumped state
(one DAG + expected linearization of every namespace, or "inconsistent") is replayed on
  (a) cylc.flow.c3mro.C3(tree).mro(name)            - all states
  (b) WorkflowConfig loaded from a generated [runtime] section (linearized ancestors, get_mro, and the
      post-inheritance values computed by compute_inheritance)   - all states (quick: all n<=4 + sample of n=5)
  (c) Python's own MRO of the equivalent class hierarchy (TypeError <=> inconsistent) - all states; a
      disagreement between the TLA+ oracle and Python is a machinery failure (oracle bug), not a violation.
"""
from __future__ import annotations
import itertools, os
from harness import oracle, tlc
from harness.common import MachineryError, parallel_map
from harness.tlaparse import to_py

def _enumerate(ctx, module, cfg=None, **kw):
    """enumerate_cases with one retry when the JVM dies without any TLC diagnostics (seen on an overloaded host).
    All cases are initial states, which TLC generates sequentially: 2 workers are faster than 16 on a busy host."""
    kw.setdefault("workers", 2)
    try:
        return oracle.enumerate_cases(ctx, module, cfg, **kw)
    except tlc.TLCError as e:
        if "error" in str(e).lower() or "timeout" in str(e):
            raise
        return oracle.enumerate_cases(ctx, module, cfg, **kw)

NAMES = ["root", "a", "b", "c", "d", "e"]
BAD_MSG = "bad runtime namespace inheritance hierarchy"


# ----------------------------------------------------------------------------- helpers
def _case(st):
    n = st["n"]
    names = NAMES[:n]
    par = {names[i]: list(st["par"][i]) for i in range(n)}
    exp = {names[i]: (list(st["exp"][i]["seq"]) if st["exp"][i]["ok"] else None) for i in range(n)}
    return names, par, exp

def shape(par):
    """Stable class of a DAG for violation keys: n / max parents / diamond?"""
    mp = max((len(p) for p in par.values()), default=0)
    return f"n{len(par)}-maxpar{mp}"

def python_mro(names, par):
    """Python's own linearization of the equivalent class hierarchy; None where class creation fails."""
    cls, out = {}, {}
    for nm in names:
        bases = par[nm]
        if any(b not in cls for b in bases):
            out[nm] = None          # a base could not be created -> this one cannot either
            continue
        try:
            k = type(nm, tuple(cls[b] for b in bases), {})
        except TypeError:
            out[nm] = None
            continue
        cls[nm] = k
        out[nm] = [c.__name__ for c in k.__mro__ if c is not object]
    return out

def naive_dfs(par, nm):
    """Old-style depth-first left-to-right order (what a wrong, non-C3 implementation would give)."""
    out = []
    def rec(x):
        if x not in out:
            out.append(x)
        for p in par[x]:
            rec(p)
    rec(nm)
    return out


# ----------------------------------------------------------------------------- (a) C3 class
def check_c3(names, par, exp):
    from cylc.flow.c3mro import C3
    import copy
    bad = []
    tree = copy.deepcopy(par)
    c3 = C3(tree)
    for nm in names:                     # same object, same order as compute_family_tree
        try:
            got = c3.mro(nm)
        except Exception as e:           # cylc raises a bare Exception for inconsistency
            if BAD_MSG not in str(e):
                raise
            got = None
        if exp[nm] is None and got is not None:
            bad.append((f"c3:accepts-inconsistent:{shape(par)}",
                        f"C3.mro({nm!r}) on {par} returned {got}, but the hierarchy has no C3 linearization"))
        elif exp[nm] is not None and got is None:
            bad.append((f"c3:rejects-consistent:{shape(par)}",
                        f"C3.mro({nm!r}) on {par} raised 'inconsistent', expected {exp[nm]}"))
        elif got != exp[nm]:
            bad.append((f"c3:wrong-order:{shape(par)}",
                        f"C3.mro({nm!r}) on {par} = {got}, C3 linearization is {exp[nm]}"))
    if tree != par:
        bad.append((f"c3:tree-mutated:{shape(par)}", f"C3.mro modified the parents tree {par} -> {tree}"))
    return bad


# ----------------------------------------------------------------------------- (b) WorkflowConfig
def pair_key(x, y):
    x, y = sorted((x, y))
    return f"P_{x}_{y}"

def flow_text(names, par):
    """[runtime] section: every namespace sets, for every other namespace y, the variable P_<pair> to its own
    name.  After inheritance, P_x_y seen from namespace ns tells which of x, y comes first in ns's linearization."""
    lines = ["[scheduler]", "    allow implicit tasks = True", "[scheduling]", "    [[graph]]", "        R1 = zz",
             "[runtime]"]
    for nm in names:
        lines.append(f"    [[{nm}]]")
        if nm != "root":
            lines.append(f"        inherit = {', '.join(par[nm])}")
        lines.append("        [[[environment]]]")
        for other in names:
            if other != nm:
                lines.append(f"            {pair_key(nm, other)} = {nm}")
    return "\n".join(lines) + "\n"

def check_config(names, par, exp, workdir):
    from optparse import Values
    from cylc.flow.config import WorkflowConfig
    from cylc.flow.exceptions import WorkflowConfigError
    bad = []
    os.makedirs(workdir, exist_ok=True)
    fpath = os.path.join(workdir, "flow.cylc")
    with open(fpath, "w") as f:
        f.write(flow_text(names, par))
    all_ok = all(v is not None for v in exp.values())
    try:
        cfg = WorkflowConfig("c35", fpath, Values())
    except WorkflowConfigError as e:
        if all_ok:
            bad.append((f"config:rejects-consistent:{shape(par)}",
                        f"[runtime] {par} rejected ({e}), but every namespace has a C3 linearization {exp}"))
        elif BAD_MSG not in str(e):
            bad.append((f"config:wrong-error:{shape(par)}", f"[runtime] {par} rejected with unrelated error: {e}"))
        return bad
    if not all_ok:
        incons = [k for k, v in exp.items() if v is None]
        bad.append((f"config:accepts-inconsistent:{shape(par)}",
                    f"[runtime] {par} loaded, but {incons} have no consistent linearization; "
                    f"cylc computed {dict(cfg.runtime['linearized ancestors'])}"))
        return bad
    for nm in names:
        got = list(cfg.runtime["linearized ancestors"][nm])
        if got != exp[nm] or list(cfg.get_mro(nm)) != exp[nm]:
            bad.append((f"config:wrong-order:{shape(par)}",
                        f"[runtime] {par}: linearized ancestors of {nm} = {got}, C3 linearization is {exp[nm]}"))
            continue
        # compute_inheritance: the value of each pair variable comes from whichever namespace is first in the MRO
        env = dict(cfg.cfg["runtime"][nm].get("environment", {}))
        m = exp[nm]
        for x, y in itertools.combinations(names, 2):
            definers = [z for z in m if z in (x, y)]
            want = definers[0] if definers else None
            if env.get(pair_key(x, y)) != want:
                bad.append((f"config:inheritance-override-order:{shape(par)}",
                            f"[runtime] {par}: {nm} sees {pair_key(x, y)}={env.get(pair_key(x, y))!r}, but with "
                            f"linearization {m} the nearest definition is {want!r}"))
                break
    return bad

def _cfg_worker(args):
    idx, names, par, exp, scratch = args
    return idx, check_config(names, par, exp, os.path.join(scratch, f"c35-{os.getpid()}"))


# ----------------------------------------------------------------------------- run / replay
def run(ctx):
    os.environ["HOME"] = os.path.join(ctx.scratch, "home")
    os.makedirs(os.environ["HOME"], exist_ok=True)
    states = _enumerate(ctx, "C3", "C3")             # all DAGs with <= 5 namespaces
    if not ctx.quick:
        states += _enumerate(ctx, "C3", "C3_thorough", timeout=1500)   # 6 namespaces, <= 3 parents
    states.sort(key=lambda st: (st["n"], st["par"]))     # deterministic order (sampling, samples, first witness)
    n = 0
    multi = incons = non_dfs = 0
    samples, samples_bad = [], []
    cfg_jobs = []
    for i, st in enumerate(states):
        names, par, exp = _case(st)
        n += 1
        # (c) oracle vs Python's own MRO
        py = python_mro(names, par)
        if py != exp:
            raise MachineryError(f"C3.tla disagrees with Python's MRO on {par}: tla={exp} python={py}")
        # (a)
        for key, text in check_c3(names, par, exp):
            ctx.violation(key, text, {"case": to_py(st)})
        is_multi = any(len(p) >= 2 for p in par.values())
        is_incons = any(v is None for v in exp.values())
        is_nondfs = any(v is not None and v != naive_dfs(par, k) for k, v in exp.items())
        multi += is_multi; incons += is_incons; non_dfs += is_nondfs
        if (is_nondfs and not is_incons and len(names) == 5 and len(samples) < 3) or \
                (is_incons and len(names) == 4 and len(samples_bad) < 2):
            (samples_bad if is_incons else samples).append({"parents": par, "expected": exp})
        cfg_jobs.append((i, names, par, exp, ctx.scratch))
    # (b) through WorkflowConfig
    if ctx.quick:
        # all small DAGs, all consistent five-namespace DAGs, seeded sample of the inconsistent ones
        keep = [j for j in cfg_jobs if len(j[1]) <= 4 or all(v is not None for v in j[3].values())]
        rest = [j for j in cfg_jobs if not (len(j[1]) <= 4 or all(v is not None for v in j[3].values()))]
        cfg_jobs = keep + ctx.rng.sample(rest, min(800, len(rest)))
    elif len(cfg_jobs) > 30000:
        five = [j for j in cfg_jobs if len(j[1]) <= 5]
        six = [j for j in cfg_jobs if len(j[1]) > 5]
        cfg_jobs = five + ctx.rng.sample(six, 25000)
    for idx, bad in parallel_map(_cfg_worker, cfg_jobs, procs=16, chunksize=32):
        for key, text in bad:
            ctx.violation(key, text, {"case": to_py(states[idx])})
    oracle.finish_cov(ctx, n, non_dfs,
                      "every inheritance DAG (root + up to 4 namespaces, ordered repetition-free parent lists; thorough adds "
                      "6 namespaces with <= 3 parents) enumerated by TLC from C3.tla with the expected linearization of every "
                      "namespace or 'inconsistent'; non-trivial = DAGs where C3 differs from naive depth-first order",
                      samples + samples_bad, exhaustive=True)
    ctx.coverage.update({"dags_with_multiple_inheritance": multi, "dags_with_inconsistent_namespace": incons,
                         "dags_where_c3_differs_from_depth_first": non_dfs, "workflowconfig_loads": len(cfg_jobs),
                         "python_mro_crosschecks": n,
                         "oracle_invariants_checked_by_tlc": ["ExactlyAncestors", "LocalPrecedence", "Monotonic",
                                                              "FailurePropagates", "ChainsOk"]})
    ctx.assumptions += ["DAG nodes are named in a topological order (root, a, b, ...): C3 is name-independent, so this "
                        "covers every DAG up to renaming; definition order in the [runtime] section follows the same order",
                        "'inherit = None, X' (first-parent demotion) and cyclic inheritance are outside this property"]

def replay(ctx, data):
    os.environ["HOME"] = os.path.join(ctx.scratch, "home")
    os.makedirs(os.environ["HOME"], exist_ok=True)
    st = data["replay"]["case"]
    names, par, exp = _case(st)
    for key, text in check_c3(names, par, exp) + check_config(names, par, exp, os.path.join(ctx.scratch, "c35")):
        ctx.violation(key, text, {"case": st})
    ctx.coverage.update({"states": 1, "transitions": 1, "traces_validated_against_impl": 1, "samples": [par]})
