"""Python values -> TLA+ literals."""
class Raw(str):
    """Already-rendered TLA+ text: passed through unchanged."""

def tla(v) -> str:
    if isinstance(v, Raw):
        return str(v)
    if v is True:
        return "TRUE"
    if v is False:
        return "FALSE"
    if v is None:
        return '"none"'
    if isinstance(v, int):
        return str(v)
    if isinstance(v, str):
        return '"' + v.replace('\\', '\\\\').replace('"', '\\"').replace('\n', '\\n').replace('\t', '\\t') + '"'
    if isinstance(v, (list, tuple)):
        return "<<" + ", ".join(tla(x) for x in v) + ">>"
    if isinstance(v, (set, frozenset)):
        return "{" + ", ".join(sorted(tla(x) for x in v)) + "}"
    if isinstance(v, dict):
        if not v:
            return "<<>>"   # empty function
        if all(isinstance(k, str) and k.isidentifier() for k in v):
            return "[" + ", ".join(f"{k} |-> {tla(x)}" for k, x in v.items()) + "]"
        return "(" + " @@ ".join(f"{tla(k)} :> {tla(x)}" for k, x in v.items()) + ")"
    raise TypeError(f"cannot emit {type(v)}: {v!r}")

class Fn(dict):
    """Force function (:> @@) rendering even for identifier-like keys."""
def tla_fn(d) -> str:
    if not d:
        return "<<>>"
    return "(" + " @@ ".join(f"{tla(k)} :> {tla(x)}" for k, x in d.items()) + ")"
