"""Helpers shared by the oracle engines (TLA+-transcribed function semantics, TLC-enumerated cases)."""
from __future__ import annotations
import os
from . import tlc, tlaparse
from .common import Ctx

ORACLE_DIR = os.path.join(tlc.SPEC_DIR, "oracle")

def enumerate_cases(ctx: Ctx, module: str, cfg: str | None = None, *, timeout=900, workers=16, heap="4g"):
    """Run TLC on spec/oracle/<module>.tla with -dump; return list of state dicts.
    Records states/transitions in ctx.coverage (accumulating over several calls)."""
    mod = os.path.join(ORACLE_DIR, module + ".tla")
    cfgp = os.path.join(ORACLE_DIR, (cfg or module) + ".cfg")
    res, states = tlc.dump_states(mod, cfgp, timeout=timeout, workers=workers, heap=heap)
    if not res.ok:
        raise tlc.TLCError(f"oracle model {module} did not check cleanly: {res.kind} {res.violated}\n{res.out[-2000:]}")
    cov = ctx.coverage
    cov["states"] = cov.get("states", 0) + res.distinct
    cov["transitions"] = cov.get("transitions", 0) + res.generated
    cov.setdefault("tlc_models", []).append({"module": module, "cfg": cfg or module, "distinct": res.distinct,
                                             "generated": res.generated, "wall_s": round(res.wall_s, 2)})
    return states

def finish_cov(ctx: Ctx, n_replayed: int, distinct_nontrivial: int, rule: str, samples: list, exhaustive: bool):
    cov = ctx.coverage
    cov["traces_validated_against_impl"] = cov.get("traces_validated_against_impl", 0) + n_replayed
    cov["evaluations"] = cov.get("evaluations", 0) + n_replayed
    cov["distinct_nontrivial"] = cov.get("distinct_nontrivial", 0) + distinct_nontrivial
    cov["rule"] = rule
    cov.setdefault("samples", []).extend(samples[:5])
    cov["exhaustive"] = exhaustive and cov.get("exhaustive", True)
    cov["checker_cmd"] = "tlc (tla2tools 1.8.0) -dump on spec/oracle/*.tla, every dumped state replayed on the code in /repo"

def bool_table(expr: str, atoms: list[str], atom_re=None):
    """Truth set of a cylc trigger expression string over given atoms: set of frozensets where true."""
    import itertools, re
    atom_re = atom_re or re.compile(r'[A-Za-z0-9_@][\w\-+%@.]*(?:\[[^\]]*\])?:[\w\-]+')
    found = set(atom_re.findall(expr))
    py = expr.replace('&', ' and ').replace('|', ' or ')
    out = set()
    order = sorted(found, key=len, reverse=True)
    for r in range(len(atoms) + 1):
        for S in itertools.combinations(atoms, r):
            e = py
            # replace longest first, via placeholders
            for i, a in enumerate(order):
                e = e.replace(a, f" __A{i}__ ")
            env = {f"__A{i}__": (a in S) for i, a in enumerate(order)}
            if eval(e, {"__builtins__": {}}, env):
                out.add(frozenset(S))
    return found, out
